//! Shared helpers: PRNG, counting wakers, output sink, panic capture.

#![allow(dead_code)]

use std::fmt::Write as _;
use std::sync::atomic::{AtomicU64, Ordering};
use std::sync::{Arc, Mutex};
use std::task::{Wake, Waker};

/// SplitMix64: every random choice derives from one state so a run replays.
#[derive(Clone)]
pub struct Rng(pub u64);

impl Rng {
    pub fn new(seed: u64) -> Rng {
        Rng(seed)
    }
    pub fn next(&mut self) -> u64 {
        self.0 = self.0.wrapping_add(0x9E37_79B9_7F4A_7C15);
        let mut z = self.0;
        z = (z ^ (z >> 30)).wrapping_mul(0xBF58_476D_1CE4_E5B9);
        z = (z ^ (z >> 27)).wrapping_mul(0x94D0_49BB_1331_11EB);
        z ^ (z >> 31)
    }
    /// Uniform in `0..n` (n > 0).
    pub fn below(&mut self, n: u64) -> u64 {
        self.next() % n
    }
    pub fn range(&mut self, lo: u64, hi_incl: u64) -> u64 {
        lo + self.below(hi_incl - lo + 1)
    }
    pub fn chance(&mut self, num: u64, den: u64) -> bool {
        self.below(den) < num
    }
    pub fn pick<'a, T>(&mut self, xs: &'a [T]) -> &'a T {
        &xs[self.below(xs.len() as u64) as usize]
    }
    /// Pick an index according to integer weights.
    pub fn weighted(&mut self, ws: &[u64]) -> usize {
        let total: u64 = ws.iter().sum();
        let mut x = self.below(total);
        for (i, w) in ws.iter().enumerate() {
            if x < *w {
                return i;
            }
            x -= *w;
        }
        ws.len() - 1
    }
    pub fn fork(&mut self) -> Rng {
        Rng(self.next())
    }
}

/// Global log of waker invocations (waker ids, in order).
pub static WAKES: Mutex<Vec<u32>> = Mutex::new(Vec::new());
pub static WAKE_SEQ: AtomicU64 = AtomicU64::new(0);

pub struct IdWaker {
    pub id: u32,
}

impl Wake for IdWaker {
    fn wake(self: Arc<Self>) {
        self.wake_by_ref();
    }
    fn wake_by_ref(self: &Arc<Self>) {
        WAKE_SEQ.fetch_add(1, Ordering::SeqCst);
        lockp(&WAKES).push(self.id);
    }
}

/// The waker with identity `id`. Two calls with the same `id` return clones of ONE waker, so that
/// `Waker::will_wake` holds between them — as it does for the wakers a real executor passes to the
/// successive polls of one task (a10 relies on it: `set_waker`, op.rs:957-963).
pub fn waker(id: u32) -> Waker {
    static CACHE: Mutex<Vec<(u32, Waker)>> = Mutex::new(Vec::new());
    let mut c = lockp(&CACHE);
    if let Some((_, w)) = c.iter().find(|(i, _)| *i == id) {
        return w.clone();
    }
    let w = Waker::from(Arc::new(IdWaker { id }));
    c.push((id, w.clone()));
    w
}

/// A waker whose `wake` panics (a bug in an executor, a channel whose receiver is gone, …).
pub fn panicking_waker() -> Waker {
    struct P;
    impl std::task::Wake for P {
        fn wake(self: Arc<Self>) {
            panic!("waker panics");
        }
    }
    Waker::from(Arc::new(P))
}

/// A waker whose `clone` panics (its `wake`s and `drop` do nothing).
pub fn clone_panicking_waker() -> Waker {
    use std::task::{RawWaker, RawWakerVTable};
    static VT: RawWakerVTable = RawWakerVTable::new(|_| panic!("Waker::clone panics"), |_| {}, |_| {}, |_| {});
    unsafe { Waker::from_raw(RawWaker::new(std::ptr::null(), &VT)) }
}

pub fn drain_wakes() -> Vec<u32> {
    std::mem::take(&mut *lockp(&WAKES))
}

pub fn lockp<T>(m: &Mutex<T>) -> std::sync::MutexGuard<'_, T> {
    match m.lock() {
        Ok(g) => g,
        Err(e) => e.into_inner(),
    }
}

/// Two output streams of a component run: the op script and the
/// implementation's canonical output (`> op` echo followed by output lines).
#[derive(Default)]
pub struct Out {
    pub ops: String,
    pub out: String,
    pub n_ops: u64,
}

impl Out {
    pub fn op(&mut self, line: &str) {
        self.ops.push_str(line);
        self.ops.push('\n');
        let _ = writeln!(self.out, "> {line}");
        self.n_ops += 1;
    }
    pub fn line(&mut self, line: &str) {
        self.out.push_str(line);
        self.out.push('\n');
    }
}

pub fn errno_name(e: i32) -> String {
    match e {
        libc::EINTR => "EINTR".into(),
        libc::ECANCELED => "ECANCELED".into(),
        libc::ETIME => "ETIME".into(),
        libc::ENOENT => "ENOENT".into(),
        libc::EALREADY => "EALREADY".into(),
        libc::EINVAL => "EINVAL".into(),
        libc::EBADF => "EBADF".into(),
        libc::ENOBUFS => "ENOBUFS".into(),
        libc::EAGAIN => "EAGAIN".into(),
        libc::EIO => "EIO".into(),
        libc::ENOMEM => "ENOMEM".into(),
        libc::EPIPE => "EPIPE".into(),
        libc::ECONNRESET => "ECONNRESET".into(),
        libc::ENXIO => "ENXIO".into(),
        libc::EBUSY => "EBUSY".into(),
        libc::EEXIST => "EEXIST".into(),
        libc::EPERM => "EPERM".into(),
        libc::EACCES => "EACCES".into(),
        libc::EFAULT => "EFAULT".into(),
        libc::EOPNOTSUPP => "EOPNOTSUPP".into(),
        n => format!("E{n}"),
    }
}

pub fn io_err_name(err: &std::io::Error) -> String {
    match err.raw_os_error() {
        Some(e) => errno_name(e),
        None => format!("{:?}", err.kind()),
    }
}

/// Run `f`, turning a panic into `Err(message)`.
pub fn catch<R>(f: impl FnOnce() -> R) -> Result<R, String> {
    match std::panic::catch_unwind(std::panic::AssertUnwindSafe(f)) {
        Ok(r) => Ok(r),
        Err(e) => {
            let msg = if let Some(s) = e.downcast_ref::<&str>() {
                (*s).to_string()
            } else if let Some(s) = e.downcast_ref::<String>() {
                s.clone()
            } else {
                "panic".to_string()
            };
            Err(msg)
        }
    }
}

pub fn hex(bytes: &[u8]) -> String {
    let mut s = String::with_capacity(bytes.len() * 2);
    for b in bytes {
        let _ = write!(s, "{b:02x}");
    }
    s
}

/// Simple JSON string escaping.
pub fn jstr(s: &str) -> String {
    let mut o = String::from("\"");
    for c in s.chars() {
        match c {
            '"' => o.push_str("\\\""),
            '\\' => o.push_str("\\\\"),
            '\n' => o.push_str("\\n"),
            '\t' => o.push_str("\\t"),
            c if (c as u32) < 0x20 => {
                let _ = write!(o, "\\u{:04x}", c as u32);
            }
            c => o.push(c),
        }
    }
    o.push('"');
    o
}

/// Is `addr` inside the stack of the main thread or of the calling thread? (Kernel-shared memory of
/// an asynchronous operation must never live there.)
pub fn on_stack(addr: usize) -> bool {
    let (lo, hi) = main_stack();
    if addr >= lo && addr < hi {
        return true;
    }
    // the calling thread's own stack (not needed on the main thread, whose range is cached above;
    // glibc would parse /proc/self/maps for it)
    let probe = 0u8;
    let here = std::ptr::addr_of!(probe) as usize;
    if here >= lo && here < hi {
        return false;
    }
    unsafe {
        let mut attr: libc::pthread_attr_t = std::mem::zeroed();
        if libc::pthread_getattr_np(libc::pthread_self(), &mut attr) == 0 {
            let mut base: *mut libc::c_void = std::ptr::null_mut();
            let mut size: libc::size_t = 0;
            let ok = libc::pthread_attr_getstack(&attr, &mut base, &mut size) == 0;
            libc::pthread_attr_destroy(&mut attr);
            if ok && addr >= base as usize && addr < base as usize + size {
                return true;
            }
        }
    }
    false
}

/// Address range of the main thread's stack; computed once by `main` BEFORE the simulated kernel
/// is active (it reads /proc/self/maps, which must not happen inside an interposed call).
pub fn main_stack() -> (usize, usize) {
    use std::sync::OnceLock;
    static MAIN: OnceLock<(usize, usize)> = OnceLock::new();
    *MAIN.get_or_init(|| {
        let maps = std::fs::read_to_string("/proc/self/maps").unwrap_or_default();
        for l in maps.lines() {
            if l.ends_with("[stack]") {
                if let Some((a, b)) = l.split(' ').next().and_then(|r| r.split_once('-')) {
                    if let (Ok(a), Ok(b)) = (usize::from_str_radix(a, 16), usize::from_str_radix(b, 16)) {
                        // the mapping grows downwards: allow for the rlimit (8 MiB)
                        return (b.saturating_sub(8 << 20).min(a), b);
                    }
                }
            }
        }
        (0, 0)
    })
}
