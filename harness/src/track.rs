//! Tracking global allocator: knows which live block every address belongs to.
//!
//! Every allocation gets a fresh, never reused *block id*. The simulated kernel
//! records the block id of every address found in a consumed submission and
//! checks, whenever it "touches" the memory, that the address still lies in
//! the same live block. Freed memory is overwritten with `0xDD` so a use after
//! free is deterministic.

use std::alloc::{GlobalAlloc, Layout, System};
use std::cell::Cell;
use std::collections::BTreeMap;
use std::sync::Mutex;

pub struct Tracking;

#[derive(Copy, Clone, Debug)]
pub struct Block {
    pub base: usize,
    pub size: usize,
    pub id: u64,
    pub align: usize,
    /// Watched blocks are reported in `drain_frees` when deallocated and are
    /// *quarantined* instead of returned to the system: a later use after free
    /// finds the old contents (no crash, no hang on a poisoned mutex) and a
    /// second free is recorded as a double free instead of corrupting the heap.
    pub watched: bool,
}

struct Table {
    live: BTreeMap<usize, Block>,
    next_id: u64,
    freed_watched: Vec<Block>,
    quarantine: BTreeMap<usize, Block>,
    double_frees: Vec<Block>,
    allocs: u64,
    frees: u64,
}

static TABLE: Mutex<Option<Table>> = Mutex::new(None);

/// While set, EVERY freed block is quarantined (not only watched ones), so a
/// pointer into memory that was freed at any time during the case — also
/// before anybody could register it with `watch` — is recognisable
/// (`freed_block_of`) and the memory is never handed out again until
/// `release_quarantine`. Only watched blocks are reported by `drain_frees`.
static QUARANTINE_ALL: std::sync::atomic::AtomicBool = std::sync::atomic::AtomicBool::new(false);

pub fn quarantine_all(on: bool) {
    QUARANTINE_ALL.store(on, std::sync::atomic::Ordering::SeqCst);
}

thread_local! {
    /// Set while inside the tracker (its own allocations are not tracked).
    static INSIDE: Cell<bool> = const { Cell::new(false) };
}

fn with_table<R>(f: impl FnOnce(&mut Table) -> R) -> Option<R> {
    let entered = INSIDE.try_with(|c| {
        if c.get() {
            false
        } else {
            c.set(true);
            true
        }
    });
    if entered != Ok(true) {
        return None;
    }
    let r = {
        let mut guard = match TABLE.lock() {
            Ok(g) => g,
            Err(e) => e.into_inner(),
        };
        let table = guard.get_or_insert_with(|| Table {
            live: BTreeMap::new(),
            next_id: 1,
            freed_watched: Vec::new(),
            quarantine: BTreeMap::new(),
            double_frees: Vec::new(),
            allocs: 0,
            frees: 0,
        });
        f(table)
    };
    let _ = INSIDE.try_with(|c| c.set(false));
    Some(r)
}

unsafe impl GlobalAlloc for Tracking {
    unsafe fn alloc(&self, layout: Layout) -> *mut u8 {
        let ptr = unsafe { System.alloc(layout) };
        if !ptr.is_null() {
            note_alloc(ptr as usize, layout.size(), layout.align());
        }
        ptr
    }

    unsafe fn alloc_zeroed(&self, layout: Layout) -> *mut u8 {
        let ptr = unsafe { System.alloc_zeroed(layout) };
        if !ptr.is_null() {
            note_alloc(ptr as usize, layout.size(), layout.align());
        }
        ptr
    }

    unsafe fn dealloc(&self, ptr: *mut u8, layout: Layout) {
        match note_free(ptr as usize) {
            Freed::Plain => {
                // Poison so that a use after free is visible (huge, mostly untouched
                // blocks: only their first MiB, so that freeing them stays cheap).
                unsafe { std::ptr::write_bytes(ptr, 0xDD, layout.size().min(1 << 20)) };
                unsafe { System.dealloc(ptr, layout) };
            }
            Freed::Unknown => unsafe { System.dealloc(ptr, layout) },
            // Watched blocks stay allocated until `release_quarantine`.
            Freed::Quarantined | Freed::Double => {}
        }
    }

    unsafe fn realloc(&self, ptr: *mut u8, layout: Layout, new_size: usize) -> *mut u8 {
        // Always move, so a stale pointer into the old block is detectable.
        let new_layout = unsafe { Layout::from_size_align_unchecked(new_size, layout.align()) };
        let new_ptr = unsafe { self.alloc(new_layout) };
        if !new_ptr.is_null() {
            unsafe {
                std::ptr::copy_nonoverlapping(ptr, new_ptr, layout.size().min(new_size));
                self.dealloc(ptr, layout);
            }
        }
        new_ptr
    }
}

enum Freed {
    Plain,
    Unknown,
    Quarantined,
    Double,
}

fn note_alloc(base: usize, size: usize, align: usize) {
    with_table(|t| {
        let id = t.next_id;
        t.next_id += 1;
        t.allocs += 1;
        t.live.insert(
            base,
            Block {
                base,
                size,
                id,
                align,
                watched: false,
            },
        );
    });
}

fn note_free(base: usize) -> Freed {
    with_table(|t| {
        if let Some(b) = t.live.remove(&base) {
            t.frees += 1;
            if b.watched {
                t.freed_watched.push(b);
            }
            if b.watched || QUARANTINE_ALL.load(std::sync::atomic::Ordering::Relaxed) {
                t.quarantine.insert(base, b);
                Freed::Quarantined
            } else {
                Freed::Plain
            }
        } else if let Some(b) = t.quarantine.get(&base) {
            t.double_frees.push(*b);
            Freed::Double
        } else {
            Freed::Unknown
        }
    })
    .unwrap_or(Freed::Unknown)
}

/// The quarantined (freed, watched) block containing `addr`, if any.
pub fn freed_block_of(addr: usize) -> Option<Block> {
    with_table(|t| {
        t.quarantine
            .range(..=addr)
            .next_back()
            .map(|(_, b)| *b)
            .filter(|b| addr < b.base + b.size.max(1))
    })
    .flatten()
}

/// Watched blocks that were freed a second time since the last call.
pub fn drain_double_frees() -> Vec<Block> {
    with_table(|t| std::mem::take(&mut t.double_frees)).unwrap_or_default()
}

/// Really free the quarantined blocks (end of a case).
pub fn release_quarantine() {
    let blocks: Vec<Block> = with_table(|t| {
        let v = t.quarantine.values().copied().collect();
        t.quarantine.clear();
        v
    })
    .unwrap_or_default();
    for b in blocks {
        unsafe {
            System.dealloc(b.base as *mut u8, Layout::from_size_align_unchecked(b.size, b.align));
        }
    }
}

/// The live block containing `addr`, if any.
pub fn block_of(addr: usize) -> Option<Block> {
    with_table(|t| {
        t.live
            .range(..=addr)
            .next_back()
            .map(|(_, b)| *b)
            .filter(|b| addr < b.base + b.size.max(1))
    })
    .flatten()
}

/// Is `[addr, addr+len)` inside the live block with id `id`?
pub fn region_in_block(addr: usize, len: usize, id: u64) -> bool {
    match block_of(addr) {
        Some(b) => b.id == id && addr + len <= b.base + b.size,
        None => false,
    }
}

/// Watch the block containing `addr`: its deallocation is reported by
/// `drain_frees`. Returns the block.
pub fn watch(addr: usize) -> Option<Block> {
    with_table(|t| {
        let key = t
            .live
            .range(..=addr)
            .next_back()
            .map(|(k, b)| (*k, *b))
            .filter(|(_, b)| addr < b.base + b.size.max(1))
            .map(|(k, _)| k)?;
        let b = t.live.get_mut(&key)?;
        b.watched = true;
        Some(*b)
    })
    .flatten()
}

/// Watched blocks freed since the last call.
pub fn drain_frees() -> Vec<Block> {
    with_table(|t| std::mem::take(&mut t.freed_watched)).unwrap_or_default()
}

/// (number of live blocks, total allocations, total frees).
pub fn stats() -> (usize, u64, u64) {
    with_table(|t| (t.live.len(), t.allocs, t.frees)).unwrap_or((0, 0, 0))
}

/// Ids of all live blocks (for leak accounting between two points).
pub fn live_ids() -> Vec<u64> {
    with_table(|t| t.live.values().map(|b| b.id).collect()).unwrap_or_default()
}

/// Live blocks with id greater than `after` (allocated since a snapshot).
pub fn live_since(after: u64) -> Vec<Block> {
    with_table(|t| t.live.values().filter(|b| b.id > after).copied().collect())
        .unwrap_or_default()
}

/// Is the block with this id still allocated?
pub fn is_live(id: u64) -> bool {
    with_table(|t| t.live.values().any(|b| b.id == id)).unwrap_or(false)
}

/// The id the next allocation will get.
pub fn next_id() -> u64 {
    with_table(|t| t.next_id).unwrap_or(0)
}
