//! a10 verification harness: runs the real a10 code in-process against the
//! simulated io_uring kernel and prints canonical traces for the Lean model.

mod comp;
mod kc;
mod sched;
mod simk;
mod track;
mod util;

#[global_allocator]
static ALLOC: track::Tracking = track::Tracking;

pub struct Args {
    pub comp: String,
    pub seed: u64,
    pub cases: u64,
    pub out: String,
    pub replay: Option<String>,
    pub tier: String,
}

fn main() {
    let mut a = Args {
        comp: String::new(),
        seed: 1,
        cases: 100,
        out: "/verif/work".into(),
        replay: None,
        tier: "quick".into(),
    };
    let mut it = std::env::args().skip(1);
    while let Some(x) = it.next() {
        match x.as_str() {
            "--seed" => a.seed = it.next().unwrap().parse().unwrap(),
            "--cases" => a.cases = it.next().unwrap().parse().unwrap(),
            "--out" => a.out = it.next().unwrap(),
            "--replay" => a.replay = Some(it.next().unwrap()),
            "--tier" => a.tier = it.next().unwrap(),
            _ if a.comp.is_empty() => a.comp = x,
            _ => panic!("unknown argument {x}"),
        }
    }
    // Quiet panics: they are captured and reported as outputs.
    // (A10H_PANICS=1 shows them, for debugging the harness itself)
    if std::env::var_os("A10H_PANICS").is_none() {
        std::panic::set_hook(Box::new(|_| {}));
    }
    if a.comp == "kc" {
        // kernel-contract probes (diagnostic): `a10h kc --tier real|sim`
        std::process::exit(kc::run(if a.tier == "sim" { "sim" } else { "real" }));
    }
    std::fs::create_dir_all(&a.out).unwrap();
    let _ = util::main_stack();
    let code = comp::run(&a);
    std::process::exit(code);
}
