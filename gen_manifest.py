#!/usr/bin/env python3
"""Regenerate MANIFEST.json from checks.json (single source of truth)."""
import json, os
ROOT = os.path.dirname(os.path.abspath(__file__))
reg = json.load(open(os.path.join(ROOT, "checks.json")))
props = [json.loads(l) for l in open(os.path.join(ROOT, "properties.jsonl"))]
hooks = reg.get("hook_commits", [])
checks = []
for p in props:
    pid = p["id"]
    if pid not in reg["properties"]:
        continue
    c = reg["properties"][pid]
    checks.append({
        "property_id": pid,
        "quick_cmd": f"./check {pid} --tier quick",
        "thorough_cmd": f"./check {pid} --tier thorough",
        "evidence_file": f"/verif/evidence/{pid}.json",
        "replay_cmd_template": f"./check {pid} --replay {{path}}",
        "engine": "lean4-proof+correspondence",
        "level_claimed": {
            "category": "proof",
            "text": c.get("level_text", "Lean 4 theorems over an executable model, tied to the code by a correspondence check (real a10 vs. model on the same op scripts) and an independent oracle on the implementation trace"),
            "design_ref": c.get("design_ref", "DESIGN.md §5"),
        },
        "level_note": c.get("level_note", "; ".join(c.get("trusted_base", []))),
        "technique": c.get("technique", "machine-checked proof in Lean 4 (model + theorems) with executable-model/implementation correspondence check"),
    })
na = []
for p in props:
    pid = p["id"]
    if pid not in reg["properties"]:
        na.append({"property_id": pid, "reason": reg.get("not_applicable", {}).get(pid, "not yet claimed: model/correspondence for this property is still being built (see DESIGN.md §5); no other technique is substituted")})
m = {
    "version": 1,
    "setup_cmd": "./check setup",
    "hooks": {
        "guard": "a10_verif",
        "enable": "harness/.cargo/config.toml sets rustflags = [\"--cfg\", \"a10_verif\"] for the harness build (a10 is a path dependency, so it is built with the cfg too)",
        "baseline_off_cmd": "cd /repo && cargo test --workspace --no-fail-fast --offline",
        "source_commits": hooks,
        "add_only": True,
    },
    "engines": [{
        "name": "lean4-proof+correspondence",
        "path": "/verif/check",
        "serves_properties": sorted(reg["properties"].keys()),
        "kind_free_text": "Lean 4 project (lean/) with executable models + theorems; Rust harness (harness/) running the real a10 code in-process against a simulated io_uring kernel (syscall interposition); line-protocol diff between implementation and model; per-property oracles",
    }],
    "checks": checks,
    "not_applicable": na,
    "notes": "See DESIGN.md. known-findings.json lists recorded findings and fixed defects.",
}
json.dump(m, open(os.path.join(ROOT, "MANIFEST.json"), "w"), indent=1)
print("claimed:", [c["property_id"] for c in checks])
