#!/usr/bin/env python3
"""mutate.py — diagnostic, NOT a registered check: mechanical mutation testing of the checks.

For N randomly chosen single-line mutations of /repo/src (operator swaps, off-by-one constants,
dropped flag bits, swapped branches) inside the files the properties are anchored in:
  1. apply the mutation to a private clone of /repo;
  2. `cargo test --workspace --offline` there: a mutant the pinned suite kills is uninteresting;
  3. otherwise run the quick checks of the properties mapped to the mutated file (on a private copy
     of /verif whose harness depends on that clone) and record which of them report a violation.
Survivors (suite passes, no check reports a violation) are printed at the end: each is either an
equivalent mutant or a blind spot. Nothing here touches /repo or /verif; scratch is /tmp/mut.

  ./mutate.py [--n 120] [--workers 4] [--seed 1] [--files f1,f2] [--keep]
"""
import argparse
import json
import os
import random
import re
import shutil
import subprocess
import sys
import threading

ROOT = os.path.dirname(os.path.abspath(__file__))
SCR = "/tmp/mut"

FILE_PROPS = {
    "src/io_uring/op.rs": ["C01", "C02", "C03", "C06", "C09"],
    "src/io_uring/cq.rs": ["C05", "C12", "C02"],
    "src/io_uring/sq.rs": ["C04", "C11", "C03"],
    "src/io_uring/mod.rs": ["C03", "C04", "C11", "C12", "C18"],
    "src/io_uring/io.rs": ["C08", "C13", "C07", "C12"],
    "src/io_uring/fd.rs": ["C07", "C13"],
    "src/io_uring/net.rs": ["C13", "C07", "C01"],
    "src/io_uring/fs.rs": ["C13", "C07"],
    "src/io_uring/config.rs": ["C18"],
    "src/io_uring/pipe.rs": ["C07", "C13"],
    "src/io_uring/process.rs": ["C13"],
    "src/io_uring/poll.rs": ["C13", "C02"],
    "src/io_uring/mem.rs": ["C13"],
    "src/io/mod.rs": ["C10", "C07", "C13"],
    "src/io/traits.rs": ["C14", "C10"],
    "src/io/read_buf.rs": ["C15", "C08", "C10"],
    "src/net.rs": ["C16", "C13", "C10"],
    "src/fs.rs": ["C13"],
    "src/fd.rs": ["C07", "C13"],
    "src/inotify/mod.rs": ["C17"],
    "src/lib.rs": ["C11", "C03", "C04"],
    "src/op.rs": ["C01", "C06"],
    "src/unix.rs": ["C13", "C14"],
}

# (regex, replacement) — applied to the first match on the chosen line
OPS = [
    (r"==", "!="), (r"!=", "=="),
    (r"<=", "<"), (r">=", ">"), (r"(?<![-=<>])<(?![<=])\s", "<= "), (r"(?<![-=<>])>(?![>=])\s", ">= "),
    (r"&&", "||"), (r"\|\|", "&&"),
    (r"\+ 1\b", "+ 0"), (r"- 1\b", "- 0"), (r"\+ 1\b", "+ 2"),
    (r"wrapping_add\(1\)", "wrapping_add(2)"), (r"wrapping_sub", "saturating_sub"), (r"saturating_sub", "wrapping_sub"),
    (r"\bmin\(", "max("), (r"\bmax\(", "min("),
    (r"\btrue\b", "false"), (r"\bfalse\b", "true"),
    (r"\|= ", "&= "), (r" \| ", " & "), (r" & ", " | "),
    (r"\.is_some\(\)", ".is_none()"), (r"\.is_none\(\)", ".is_some()"), (r"\.is_empty\(\)", ".len() == 1"),
    (r"(?<![.\w])0(?![.\w])", "1"), (r"(?<![.\w])1(?![.\w])", "0"), (r"(?<![.\w])2(?![.\w])", "3"),
    (r"as u32", "as u16 as u32"), (r"\bu32::MAX\b", "u16::MAX as u32"),
    (r"\+=", "-="), (r"-=", "+="), (r" \+ ", " - "), (r" - ", " + "),
    (r"Some\(([a-z_]+)\) =>", r"Some(\1) if false =>"),
    (r"\.drain\(\.\.", ".drain(1.."),
    (r"<<", ">>"), (r"!\(", "("),
    # statement deletion: a whole line that is one call / assignment statement becomes empty
    (r"^(\s+)(?!let |return |break|continue|use |pub |fn |if |else|match |for |while |loop|\}|\{|//|#)([a-zA-Z_\*\(&][^{}]*;)\s*$", r"\1;"),
]

SKIP_LINE = re.compile(r"^\s*(//|#\[|log::|debug_assert|asan::|msan::|use |pub use |mod |\}|\{|$)|verif::|a10_verif|unreachable!|panic!|\.field\(|f\.debug_|write!\(|stringify!|concat!|=> \x22|const fn|\bconst [A-Z_]+:|doc\s*=")


def sh(cmd, cwd=None, timeout=None, env=None):
    try:
        p = subprocess.run(cmd, cwd=cwd, stdout=subprocess.PIPE, stderr=subprocess.STDOUT, timeout=timeout, env=env)
        return p.returncode, p.stdout.decode("utf-8", "replace")
    except subprocess.TimeoutExpired as e:
        return 124, (e.stdout or b"").decode("utf-8", "replace") + "\nTIMEOUT"


def in_fmt_fn(lines, i):
    """inside `fn fmt(` (Debug/Display)? look back for the enclosing fn header"""
    for j in range(i, max(-1, i - 400), -1):
        m = re.match(r"\s*(pub(\(crate\))? )?(const )?(unsafe )?fn (\w+)", lines[j])
        if m:
            return m.group(5) == "fmt"
    return False


def candidates(repo, files, rng):
    out = []
    for f in files:
        p = os.path.join(repo, f)
        if not os.path.exists(p):
            continue
        lines = open(p).read().split("\n")
        in_test = False
        for i, l in enumerate(lines):
            if "#[cfg(test)]" in l:
                in_test = True
            if in_test or SKIP_LINE.search(l) or l.strip().startswith("///") or l.strip().startswith("//"):
                continue
            code = l.split("//")[0]
            if not code.strip() or in_fmt_fn(lines, i):
                continue
            for k, (rx, rep) in enumerate(OPS):
                if re.search(rx, code):
                    out.append((f, i, k))
    rng.shuffle(out)
    return out


def apply(repo, f, i, k):
    p = os.path.join(repo, f)
    lines = open(p).read().split("\n")
    rx, rep = OPS[k]
    code, sep, cmt = lines[i].partition("//")
    new = re.sub(rx, rep, code, count=1)
    if new == code:
        return None
    orig = lines[i]
    lines[i] = new + sep + cmt
    open(p, "w").write("\n".join(lines))
    return orig.strip(), lines[i].strip()


def worker(wid, jobs, results, lock, args):
    wd = os.path.join(SCR, f"w{wid}")
    repo = os.path.join(wd, "repo")
    verif = os.path.join(wd, "verif")
    shutil.rmtree(wd, ignore_errors=True)
    os.makedirs(wd)
    sh(["git", "clone", "-q", "/repo", repo])
    sh(["rsync", "-a", "--exclude", ".git", "--exclude", "replays", "--exclude", "work", ROOT + "/", verif + "/"])
    ct = os.path.join(verif, "harness", "Cargo.toml")
    open(ct, "w").write(open(ct).read().replace('path = "/repo"', f'path = "{repo}"'))
    env = dict(os.environ, CARGO_NET_OFFLINE="true")
    # warm builds
    sh(["cargo", "test", "--workspace", "--offline", "--no-run", "-j", "4"], cwd=repo, timeout=1800, env=env)
    while True:
        with lock:
            if not jobs:
                return
            f, i, k = jobs.pop()
        sh(["git", "checkout", "-q", "--", "."], cwd=repo)
        r = apply(repo, f, i, k)
        if r is None:
            continue
        orig, mut = r
        rec = {"file": f, "line": i + 1, "orig": orig, "mut": mut}
        rc, out = sh(["cargo", "test", "--workspace", "--offline", "--no-run", "-j", "4"], cwd=repo, timeout=1800, env=env)
        if rc != 0:
            rec["status"] = "does-not-compile"
        else:
            log = os.path.join(wd, "suite.log")
            with open(log, "w") as fh:
                try:
                    # a mutant can make a test print without end: cap the log (RLIMIT_FSIZE) and kill the
                    # whole process group on a time-out so that nothing keeps the file open
                    import resource, signal
                    def lim():
                        os.setsid()
                        resource.setrlimit(resource.RLIMIT_FSIZE, (256 << 20, 256 << 20))
                    pr = subprocess.Popen(["cargo", "test", "--workspace", "--no-fail-fast", "--offline", "-j", "4"], cwd=repo, stdout=fh, stderr=subprocess.STDOUT, env=env, preexec_fn=lim)
                    try:
                        rc = pr.wait(timeout=600)
                    except subprocess.TimeoutExpired:
                        rc = 124
                    try:
                        os.killpg(pr.pid, signal.SIGKILL)
                    except ProcessLookupError:
                        pass
                except OSError:
                    rc = 125
            if rc != 0:
                rec["status"] = "killed-by-suite"
            else:
                rec["checks"] = {}
                caught = False
                for pr in FILE_PROPS.get(f, []):
                    rc, out = sh([os.path.join(verif, "check"), pr, "--tier", "quick"], cwd=verif, timeout=2400, env=env)
                    viol = [l for l in out.splitlines() if l.startswith("VIOLATION")]
                    rec["checks"][pr] = {"rc": rc, "violation": viol[0][:200] if viol else None}
                    if rc == 1 and viol:
                        caught = True
                        if not args.all_checks:
                            break
                rec["status"] = "caught" if caught else "SURVIVED"
        with lock:
            results.append(rec)
            with open(os.path.join(SCR, "results.jsonl"), "a") as fh:
                fh.write(json.dumps(rec) + "\n")
            print(f"[w{wid}] {rec['status']:16} {f}:{i+1}  {orig[:60]!r} -> {mut[:60]!r}", flush=True)


def main():
    ap = argparse.ArgumentParser()
    ap.add_argument("--n", type=int, default=120)
    ap.add_argument("--workers", type=int, default=4)
    ap.add_argument("--seed", type=int, default=1)
    ap.add_argument("--files", default="")
    ap.add_argument("--all-checks", action="store_true")
    ap.add_argument("--ops", default="", help="comma separated operator indices (default: all); -1 = the last one (statement deletion)")
    ap.add_argument("--keep", action="store_true")
    args = ap.parse_args()
    rng = random.Random(args.seed)
    files = [f for f in args.files.split(",") if f] or list(FILE_PROPS)
    os.makedirs(SCR, exist_ok=True)
    cands = candidates("/repo", files, rng)
    if args.ops:
        want = {int(x) % len(OPS) for x in args.ops.split(',')}
        cands = [c for c in cands if c[2] in want]
    # spread over files: at most ceil(n / len(files)) * 2 per file
    per = {}
    jobs = []
    cap = max(2, (2 * args.n) // max(1, len(files)))
    for c in cands:
        if per.get(c[0], 0) < cap:
            per[c[0]] = per.get(c[0], 0) + 1
            jobs.append(c)
        if len(jobs) >= args.n:
            break
    print(f"{len(cands)} candidate mutations, running {len(jobs)} on {args.workers} workers")
    results = []
    lock = threading.Lock()
    ts = [threading.Thread(target=worker, args=(w, jobs, results, lock, args)) for w in range(args.workers)]
    for t in ts:
        t.start()
    for t in ts:
        t.join()
    tally = {}
    for r in results:
        tally[r["status"]] = tally.get(r["status"], 0) + 1
    print("summary:", tally)
    for r in results:
        if r["status"] == "SURVIVED":
            print(f"SURVIVED {r['file']}:{r['line']}  {r['orig']}  ->  {r['mut']}")
    if not args.keep:
        for w in range(args.workers):
            shutil.rmtree(os.path.join(SCR, f"w{w}"), ignore_errors=True)


if __name__ == "__main__":
    main()
